#!/usr/bin/env python3
"""Regenerate MANIFEST.json from the per-property table below (kept here so the manifest stays valid)."""
import json, os
V = os.path.dirname(os.path.dirname(os.path.abspath(__file__)))

BASE_NOTE = ('Trusted: Lean 4.33 kernel (axioms audited per theorem: propext, Classical.choice, Quot.sound only; no sorry/'
             'native_decide/bv_decide), the compiled model driver, harness/gen_tables.py and the correspondence harness '
             '(generators, canonicalisation). The theorem is about the hand-written Lean model; the model is tied to /repo '
             'on every run by differential correspondence on generated inputs and by regenerated tables checked by decide. ')

CLAIMED = {
 'C18': dict(
    text='Kernel-checked theorems: validate_iff, get_spec, set_spec, set_extent, get_after_set, reset_spec, the write algebra (validate_after_set: a write never changes which ranges are accepted; set_idempotent; set_overwrite: the last write to a range wins; set_commute_disjoint: writes to disjoint ranges commute; get_unaffected_by_disjoint_set: no bleed into neighbouring ranges), '
         'blocks_refine_map (any op sequence on a block = the same sequence on a partial map, by induction), context_offset, context_set_frame (a write through one function code leaves every other table and the addressing mode unchanged), '
         'server-context routing; the model is compared with the real block/context classes on boundary sweeps and random '
         'op sequences each run (validate is also checked against the block\'s own current contents after ANY history; blocks are built from shared initial lists, which must never be written through; server contexts built in each way a caller can build them; several live in one process and must not share their registry; slave contexts built with every subset of their four tables left out are checked against four independent maps).',
    design='6/C18', technique='Lean 4 refinement proof (block = partial map) + differential correspondence',
    note='Modelled not verified: Python list slicing and dict order. Values restricted to non-negative ints/bools.'),
}

CLAIMED['C04'] = dict(
    text='Kernel-checked refinement: Props.C04.exec_refines (Impl.serverExecute = RegisterFile.step for every request, '
         'layout and state) and run_refines (every history, by induction), reset_refines + run_refines_with_resets (histories in which the application calls ModbusSlaveContext.reset() anywhere), frame-rule, read-your-writes (readCells_after_write: reading back a written range returns exactly the written values), writeCells_commute_disjoint, writeCells_overwrite, readCells_after_disjoint_write corollaries on the '
         'spec; the model is compared with decode -> handler.execute of the real code on random histories (with application-level ModbusSlaveContext.reset() steps in between) each run, and the real '
         'responses/table contents with the Lean register-file spec.',
    design='6/C04', technique='Lean 4 refinement proof (server execute = register file) + differential correspondence',
    note='Modelled not verified: ModbusBaseRequestHandler.execute catch-all as serverExecute; framers are covered by C03/C06/C09. '
         'Datastore cells restricted to non-negative ints/bools.')
CLAIMED['C05'] = dict(
    text='Kernel-checked: exception_no_change (an exception response implies the whole context is unchanged, any history), '
         'the decision table bad_value_gives_03 / bad_range_gives_02 / broken_gives_04 / unknown_fc_gives_01 / valid_gives_normal on the '
         'spec, tied to the implementation model by C04.exec_refines; boundary sweeps (quantities, addresses, byte counts, coil '
         'words, unassigned function codes, raising datastores) and invalid-heavy histories with reset() steps run against the real code each run.',
    design='6/C05', technique='Lean 4 invariant + decision-table proof + differential correspondence',
    note='A failing datastore is modelled as a table that raises on every access (exception 04, nothing changes).')

CLAIMED['C01'] = dict(
    text='Kernel-checked: enc_req_conforms / enc_resp_conforms (every request/response/exception encoder = the spec PDU, all field values '
         'and list lengths), dec_req_conforms / dec_resp_conforms (every spec-conformant PDU decodes to the message it carries), '
         'packBits_spec + unpack_pack (LSB-first, zero padded, any length), exception layout, dispatch tables regenerated from the '
         'source and checked by decide; three known findings proved as counterexamples (FIFO count, read-file-record response layout, '
         'multi-word diagnostic request); enc_readFileRecord_req_conforms / enc_writeFileRecord_req_conforms / enc_writeFileRecord_resp_conforms / '
         'dec_readFileRecord_req_conforms / dec_writeFileRecord_req_conforms / dec_writeFileRecord_resp_conforms (file-record PDUs, every list '
         'of sub-requests, by induction). Device-identification PDUs are covered by the correspondence harness (and C20). Decoders are isolated: vendor classes registered on one decoder must not change what any other decoder of the process makes of a standard PDU. Objects are also edited in place after a first encode (lists overwritten / bits flipped) and must encode the PDU of their current field values. The event bytes of pymodbus/events.py (the content an application files in the FC 12 event log) are modelled too (Model/Events.lean): event_send_conforms / event_send_roundtrip / event_recv_decode_conforms / event_fixed_roundtrip / event_send_decode_encode over all flag sets and all 256 bytes, and event_recv_encode_as_coded / event_recv_encode_never_conforms (RemoteReceiveEvent.encode packs seven bits: every flag one bit too low, bit 7 clear; outside the property\'s message classes, so recorded in DESIGN, not a finding); compared with the real classes exhaustively each run; the event log of ModbusControlBlock (addEvent/getEvents) is Events.runLog: eventlog_bounded (at most 64 entries after any history, by induction), eventlog_bytes_bounded, eventlog_newest_first, compared on histories of up to 200 calls. generated_event_table: the event bytes and the log cap observed on the imported classes on every run (Generated.eventEncodeTable / eventLogCap) equal the model\'s.',
    design='6/C01', technique='Lean 4 proof of codec conformance to a spec transcription + differential correspondence',
    note='Spec/PduSpec.lean is a transcription of Modbus Application Protocol v1.1b3 section 6-7 (trusted).')
CLAIMED['C02'] = dict(
    text='Kernel-checked: roundtrip_req / roundtrip_resp (decode(encode m) = m up to zero padding), encode_pure_req/resp (the object after '
         'encode() encodes identically, for every object state), reencode_decoded_*, decode_encode_fixed_point, '
         'decode_history_independent_partial + counterexample for the one accumulating class (known finding, pinned by a test).',
    design='6/C02', technique='Lean 4 round-trip / idempotence proofs + differential correspondence',
    note='Object mutation by encode()/decode() is modelled by postEncReq/postEncResp/decodeIntoResp and compared with the real objects.')
CLAIMED['C14'] = dict(
    text='Kernel-checked: read_size_exact (prediction = 1 + encoded normal response for FC 1-4, 23, every context and quantity, via the C04 '
         'refinement), expected_adu_exact (the ADU length the client computes = the length of the frame the server builds, RTU/ASCII/binary), '
         'write_size_exact, diag_size_exact (every FC 8 sub-function class), exception_size; recv_exact_normal / recv_exact_exception (the model of _recv on a serial transport reads exactly the frame that arrives - min_size bytes, then the rest, nothing beyond the checksum - for a normal reply of the predicted length and for an exception reply whatever was predicted, any bytes may follow), recv_full_is_one_read + noteResp_self / noteResp_other / noteResp_nodup (the one designed exception: a unit is on the list that selects a one-piece read exactly when its latest attempt read nothing; other units are unaffected); exhaustive run over all quantities '
         'through the real server path and through a stub-transport client for RTU/ASCII/binary/TLS/socket framings; client histories (silent unit, local echo, retries answered by exception replies) must ask the port for exactly the bytes that arrive; EVERY history of up to four transactions over {silent, normal reply, exception 2, gateway exception 0x0B, 0x0B from a second unit} is run on every framing and every reply must be read exactly (the one read that directly follows a transaction the same unit left unanswered is made in one piece by design); the REAL ModbusSerialClient is run on a fake port with virtual time where the reply arrives whole or in two bursts.',
    design='6/C14', technique='Lean 4 arithmetic proof over the C04 refinement + exhaustive differential run',
    note='Per-framing overhead is checked on the real framers by the harness (transport stub returns exactly the bytes asked).')

CLAIMED['C20'] = dict(
    text='Kernel-checked: pdu_bound/serve_bound (every response PDU <= 253 bytes for every identity and request), exchange_total, '
         'page_progress, chain_complete (values <= 244 bytes: the pages of the client chain concatenate to exactly the configured '
         'non-empty objects of the category from the start id on, within max(1,#objects) requests, by induction on the chain), '
         'chain_terminates (any start id), individual_access, and chain_245_counterexample / C20_counterexample (a 245-byte object '
         'is never delivered: the full statement is false); the model is compared page by page with ServerDecoder -> execute -> '
         'encode -> ClientDecoder of the real code on generated identities each run. Identities with up to all 135 object ids populated by 0..3-byte values are part of the generated and of the deterministic cases.',
    design='6/C20', technique='Lean 4 proof about a model of the paging chain + differential correspondence',
    note='Modelled not verified: dict insertion order, struct.pack of bytes. Identity values are byte strings (ASCII str); '
         'non-ASCII str values are a recorded known finding checked by direct predicates only.')

CLAIMED['C19'] = dict(
    text='Kernel-checked, for ALL byte/word orders and ALL in-range typed value lists (induction over the list, algebraic '
         'per-width lemmas): roundtrip_bytes / roundtrip_registers (decode(build(vs)) = vs through the byte string and through '
         'to_registers/fromRegisters, odd totals included), *_general (bit groups of any length come back zero-filled to whole '
         'bytes), register_image / register_image_value / register_image_aligned (to_registers = the conventional image: big/big '
         'network order, little word order reverses the words, little byte order swaps the bytes of each word), '
         'builder_rejects_out_of_range, roundtrip_coils (through to_coils/fromCoils, every order; repaired); counterexample '
         'roundtrip_full_counterexample (bit group not in whole bytes). The model is compared with the real builder/decoder '
         'on generated sequences and raw decoder runs each run, and the real bytes/registers with the Lean spec image. Read-outs are observers: to_registers()/to_coils()/build() in the middle of adding values and at the end leave to_string() unchanged.',
    design='6/C19', technique='Lean 4 proof (builder/decoder model vs conventional register image) + differential correspondence',
    note='Numbers are exchanged as bit patterns; Python number <-> pattern is struct (trusted; NaNs as struct reproduces them). '
         'Known finding: bits-zero-fill.')

CLAIMED['C03'] = dict(
    text='Kernel-checked: tcp/rtu/ascii/tls/binary_build_spec (buildPacket = the specified ADU: MBAP with length = PDU + 1, CRC-16 low byte '
         'first, upper-case hex + LRC + CRLF, bare PDU, {..CRC}), crc_is_spec / lrc_is_spec (table-driven CRC = bit-serial CRC-16/Modbus for '
         'every byte string; proofs in Props/Checksum.lean), whole_packet_delivers + request_roundtrip (every framing) + response_roundtrip (a fresh '
         'receiver handed the packet delivers exactly the message with its ids), rtu_oracle_exact_req/resp (the RTU length oracle is exact and '
         'prefix-stable for the data-access classes); known-finding counterexamples (binary escaping, RTU diagnostic reply size).',
    design='6/C03', technique='Lean 4 proof (framer models vs ADU spec, CRC algebra) + differential correspondence',
    note='Spec/AduSpec.lean and Spec/ChecksumSpec.lean are transcriptions of the serial-line / MBAP specifications (trusted).')
CLAIMED['C06'] = dict(
    text='Kernel-checked: chunking_independent — for each of the TCP, RTU, ASCII and binary receivers and ANY division of a stream of valid '
         'frames into chunks (every cut set, empty reads included, any number of frames) the deliveries are exactly the messages of the '
         'frames in order, no exception escapes and the buffer ends empty; proved by induction over the chunk list from two facts per '
         'framer (a built frame is recognised whatever follows it; every proper prefix of it makes the receiver wait). The harness cuts streams of every message class (FIFO / file-record replies relative to what one frame per read delivers) at every position, byte by byte and at random cut sets. The binary case needs only NoEnd (no 0x7D between the braces): frames with the start delimiter 0x7B in the CRC or as unit id are covered (example in Props). One history in five runs with DEBUG logging on.',
    design='6/C06', technique='Lean 4 induction over arrival schedules (generic receive loop + per-framer step lemmas) + differential correspondence',
    note='The framer state is modelled as its buffer (the header dict is recomputed from the buffer head); checked call by call against the real framers on every run.')
CLAIMED['C07'] = dict(
    text='Kernel-checked: delivery_justified (over any chunk history every delivery comes from a frame decision on a contiguous window of the '
         'received bytes) + rtu/tcp/ascii/binary_frame_valid (what such a decision guarantees: matching CRC-16 / consistent MBAP length / hex + '
         'matching LRC), corrupted_frame_rejected (codeword-level: any error pattern with non-zero CRC register fails the check, CRC field '
         'included) with corollaries single_bit, odd_weight (1 and 3 bits), burst16, double_bit (frames <= 4095 bytes), lrc_single_byte. Frames whose checksum is all zeros / all ones are found by search and damaged like the others; the checksum field inverted / zeroed / set to ones is a corruption kind.',
    design='6/C07', technique='Lean 4 invariant proof over chunk histories + CRC linearity/residue algebra + differential correspondence',
    note='Detection theorems are about the check the receiver applies at a frame position; a corrupted stream may still contain another valid window (the oracle in the harness accepts exactly those).')

CLAIMED['C11'] = dict(
    text='Kernel-checked: ascii_resync / binary_resync (WHATEVER the receiver holds after any noise, one whole valid frame leaves its buffer '
         'empty: invariant "buffer ends with the end delimiter" preserved by every drop of the receive loop), later_frames_delivered + '
         'ascii_never_deaf (every valid frame after that is delivered, backlog zero), rtu_step_kinds, rtu_server_decides (server-side length '
         'oracle <= 268 bytes: a decision is taken by then), rtu_server_backlog_bounded (run level, EVERY input and chunking: after each call fewer than 268 bytes stay buffered unless a decoder exception escaped), rtu_server_resync + rtu_server_never_deaf (a waiting receiver that sees 268 bytes of ANY traffic flushes and is aligned, every valid frame after that is delivered in any chunking; hypothesis NoFalseFrame: the window at the head of the noise never passes the CRC along the reads, decidable, non-vacuity example), rtu_flush_resync; rtu_client_counterexample (known finding: '
         'client-side oracle unbounded), rtu_flush_discards_read_counterexample (known finding: the flush takes the rest of the read with it).  Garbage includes heads announcing frames at/beyond the maximum size.  RTU resynchronisation is stated up to the protocol-inherent false-frame case, which the harness '
         'counts and excludes.  The same histories (garbage, then requests) are driven through the REAL serial server handler on a stream-semantics port (a read returns at most the bytes asked for) for all three serial framings: every request of an arrival that starts after the bound must be answered, and the bytes written agree with the model server.',
    design='6/C11', technique='Lean 4 invariant proof over the receive loop + differential correspondence on garbage/valid histories',
    note='RTU has no delimiter: alignment after noise is recovered at the first failed CRC; a CRC-valid window that starts inside the noise '
         '(probability about 2^-16) is excluded by hypothesis and measured by the harness.')

CLAIMED['C16'] = dict(
    text='Kernel-checked, over ALL operation histories on a fresh protocol object (any number of requests, any callback/errback '
         'continuation trees re-entering execute, any reply order/duplication, connection loss and reconnects anywhere; induction '
         'over the history through one invariant): fires_at_most_once, fires_with_matching_tid (TCP), fifo_order + fifo_reply_oldest '
         '(serial), delivered_reply_is_the_arrived_one, unsolicited_dropped / duplicate_dropped / reply_keeps_others, '
         'lost_fails_all_pending (re-entrant requests issued inside connectionLost included), after_loss_every_execute_fails + '
         'connection_private / connection_is_single_history / chunks_are_replies / chunking_independent + chunking_same_as_whole (ANY division of a stream of valid reply frames into reads gives exactly the state and events of the replies arriving whole; via C06, possible since dataReceived passes unit=0) / split_reply_delivered / unit_from_chunk_counterexample (mutant Guess.*: the fixed finding async-unit-from-chunk) / generated_data_received_unit / multi_connection_lifts (several protocol objects in one process, replies arriving in chunks through the framer models: an operation on one connection changes nothing of another, so every history theorem holds per connection), shared_buffer_counterexample (mutant with one framer for all objects), generated_per_instance_state + generated_manager_kinds + generated_data_received_unit (regenerated from the source each run: per-object framer and manager, which manager each way of building a protocol object gives, what dataReceived passes as unit), after_loss_history, after_close_every_execute_fails + lost_after_close_fails_all_pending + close_then_lost (a local close() anywhere in the history), no_exception, failed_send_leaves_no_deferred + failed_send_keeps_outstanding + reply_after_failed_send + fifo_reply_oldest_after_failed_send (execute calls whose encoding or transport.write raises: nothing is registered, later replies still reach their own requests), orphan_counterexample (mutant Orphan.*: deferred registered before the send), generated_failed_send (observed on the real protocol objects each run), C16_fifo (whole property, serial variant) and - in full since the repaired id allocation (5cae7f5) - '
         'C16_dict (whole property, TCP variant, every history, any number of wraps of the 16-bit counter, requests pending for '
         'any length of time), distinct_ids / distinct_ids_final / table_keys_distinct, no_deferred_lost, next_tid_is_free '
         '(pigeonhole over the 65536 candidates of the getNextTID loop), all with the single decidable side condition Spec.RoomAll: '
         'fewer than 65536 requests outstanding (otherwise no free id exists); generated_tid_alloc (ids OBSERVED on the real '
         'managers each run = the model\'s); distinct_ids_counterexample / C16_dict_counterexample are kept as theorems about the '
         'mutant Old.* (allocation before 5cae7f5: fixed finding tid-wrap-overwrite). The model is compared event by event with the real ModbusClientProtocol / ModbusSerClientProtocol / '
         'ModbusUdpClientProtocol driven over a fake transport with real Deferreds, and the decidable Spec predicates are '
         'evaluated by the driver on the real trace each run. Cancellation of outstanding deferreds by the application is probed directly on the real protocol objects (not a model operation).',
    design='6/C16', technique='Lean 4 invariant proof over operation histories of a re-entrant state machine + differential correspondence',
    note='Modelled not verified: Twisted runs callbacks synchronously (Deferred semantics, checked by the trace comparison); the '
         'framer is abstracted to "a complete reply frame with transaction id t arrives" (framing itself is C03/C06/C07); the '
         'application re-enters only execute. close() is an operation of the model (flag cleared, transport.close() if the transport has one, nothing failed); the later connectionLost of the transport is a separate operation. The reconnecting factory policy is out of scope.')

TXN_NOTE = ('Modelled not verified: the transport (OS sockets, serial port, real time) is the scripted peer of harness/txnlib.py - one '
            'reaction per transmission (reply bytes now, bytes that arrive after the attempt, send / receive failure, peer close), stream '
            'reads return min(n, available), time is virtual (time / select / socket / serial.Serial references of the client modules '
            'are swapped for fakes, no pymodbus function is replaced); connect() succeeds; a finite timeout is configured. The model is '
            'the tree after the fix commits listed in known_findings.json (C08 / C13 entries). ')
CLAIMED['C08'] = dict(
    text='Kernel-checked on Model/Txn.lean (one client.execute over a scripted transport; every framer x transport x retry setting, '
         'every client state with an empty transaction table, every peer state and script): returned_reply_answers_request (a returned '
         'reply satisfies Spec answers: transaction id on MBAP, unit id on serial framings unless unit 0/255, function code or code|0x80, '
         'AND is the decoding of bytes read from the transport during this call), stale_never_returned, conformant_reply_returned '
         '(generic) + _tcp / _rtu / _ascii / _binary instances composed with the codec and frame round trips of C02/C03 (all WFResp '
         'response classes and exception replies, value returned = value sent), stale_input_before_write_is_discarded, tid_step / '
         'tid_sequence (ids tid0+1.. mod 65536 along any history) / tid_wraps / wire_tid, history_independent. The model is compared per '
         'call (result, frames written, bytes consumed / flushed, state) with the real ModbusTcpClient (4 framers), ModbusSerialClient '
         '(3) and ModbusUdpClient over fake transports, and the Spec predicate is evaluated by the driver on the REAL replies each run.',
    design='6/C08', technique='Lean 4 proof over a scripted-transport model of the sync client + differential correspondence',
    note=TXN_NOTE + 'Replies of the classes outside C01.WFResp (file records, FIFO, device identification) are covered by '
         'correspondence only; RTU/ASCII/binary instances assume the predicted reply size equals the real one (C14) as the explicit '
         'hypothesis ExpectedOk. Known finding udp-stale-datagram: the UDP client cannot discard a pending datagram.')
CLAIMED['C13'] = dict(
    text='Kernel-checked on Model/Txn.lean, for every configuration, client / peer state and script (induction over the retry counter '
         'and the script): transmissions_le (<= 1 + retries), reads_bounded (<= 2 per transmission: every loop is structurally bounded), '
         'frames_written, never_raises + raises_only_unencodable (result is a reply, an error object or the broadcast marker), '
         'ready_after / pending_empty_invariant / next_call_ignores_leftovers / failed_call_leaves_healthy (a call that returns an error '
         'object has closed the connection), retries_honoured + retry_on_empty_honoured + retry_on_invalid_honoured, recovers / '
         'recovers_after_any_history / recovers_after_failure; the unrestricted recovery statement C13_recovers_full is refuted by '
         'recovers_udp_counterexample (known finding udp-stale-datagram) with udp_recovers_on_the_next_call. Real clients are run over '
         'fake transports under a virtual clock with an operation budget (a hang is a violation); per call the result, transmissions, '
         'virtual time, state and the retry / recovery clauses are checked on the real trace; scripts over a 10-kind alphabet are '
         'enumerated exhaustively (length <= 2 quick, <= 3 thorough).',
    design='6/C13', technique='Lean 4 proof (structural bounds, retry-loop induction) + differential correspondence under virtual time',
    note=TXN_NOTE + 'Virtual time of the real code is measured by the harness against (1+retries)*(4*timeout)+backoff, not proved in '
         'Lean. ModbusUdpClient default timeout None (blocks for ever) is outside the scope (a finite timeout is assumed).')

SERVER_NOTE = ('Modelled not verified: socketserver / asyncio / the Twisted reactor are replaced by "chunks are handed to the handler in '
               'order" (in-process fakes drive the real handler and protocol classes). The model covers the execute methods of every '
               'request class and the process-wide control block (message counters, listen-only flag, identity), so bytes written, '
               'connection liveness, tables and control state are compared exactly. ')
CLAIMED['C09'] = dict(
    text='Kernel-checked on Model/Server.lean: response_matches_request (every request class: the answer carries the request function code or '
         'code|0x80), frames_eq_answered (exactly one frame per answered delivery when nothing undecodable arrived), '
         'silent_cases (broadcast / ignored missing unit: nothing is sent), frames_le_answered + no_spontaneous_output (at most one frame '
         'per answered delivery, none without a delivery), frames_carry_request_ids (every frame written is the framing of a response '
         'with the request unit and transaction id), over every event list by induction. Request histories with random ids, pipelined, '
         'of every request class (data access, diagnostics, file records, device identification, broken layouts), split across reads and with idle '
         'timeouts of the threaded handler in between, are sent to all seven real front-ends each run (the sync handlers run their handle() loop '
         'once per connection in a thread, as socketserver does); what they write is compared with the model and parsed with a client receiver.',
    design='6/C09', technique='Lean 4 proof over the server front-end model (induction over deliveries) + differential correspondence',
    note=SERVER_NOTE + 'Which frames are delivered is settled for the framers by C06/C07.')
CLAIMED['C10'] = dict(
    text='Kernel-checked: addressed_unit_only (a non-broadcast request leaves every other unit untouched), unhosted_unit (nothing changes; '
         'no answer or gateway exception), addressed_unit_executed, broadcast_once (applied exactly once to every hosted unit), '
         'broadcast_no_response, broadcast_unit_accepted, other_requests_leave_tables, unit0_ordinary_without_broadcast, single_mode_any_unit. All seven real front-ends '
         'are run each run on hosted sets incl. 0/255 with per-unit dumps after every request; final tables are checked against the '
         'per-unit projection of the history executed by the register-file spec. Histories include units removed from the context at run time '
         '(del context[u]) and units ATTACHED at run time to a server that was built — by the front-end\'s real constructor — around a context without units; the model carries the unit list a handler read before its blocking read (Conn.snap), as the sync TCP and asyncio handlers do. Noisy lines: the head of a frame for one hosted unit followed by a complete request to another - no unit changes unless a complete valid frame addresses it. Kernel-checked in addition: handleEvents_untouched / connStep_untouched (whatever bytes arrive, the tables of a hosted unit change only through a DELIVERED request that addresses it or is a broadcast). Run-time `context[v] = slave` steps; two sync TCP connections really interleaved between checkFrame and populateResult (one handler thread parked at the decoder). registered_unit_accepted / registered_unit_served (a unit registered at run time is in the list the front-ends hand their framers and its requests are executed on the registered tables).',
    design='6/C10', technique='Lean 4 proof over the server front-end model (unit routing) + differential correspondence + projection oracle',
    note=SERVER_NOTE)
CLAIMED['C12'] = dict(
    text='Kernel-checked: no_exception_escapes / serve_no_exception (connStep never reports an escaped exception, for every byte string, '
         'connection state and front-end), store_unchanged_without_delivery, rejected_request_changes_nothing, stopped_connection_inert, '
         'offending_data_closes_or_resets, fresh_connection_probe (a connection opened after any history is served normally), serve_chunking_independent / serve_any_two_chunkings (C06 composed with the front-end model: a stream of valid request frames of ANY classes cut into reads ANYWHERE makes a stream front-end write exactly the bytes, and leaves exactly the datastore and control block, of the requests handled one after the other; nothing stays buffered; hypothesis for Twisted: listen-only mode is not switched on in the run, shown necessary by twisted_listen_only_depends_on_chunking). Hostile histories (random bytes, well-framed ADUs around truncated / over-long / inconsistent / '
         'empty PDUs, length fields 0/1/65535, bit flips, mixed with valid writes) are sent to all seven real front-ends each run with an idle '
         'second connection and a fresh third one probed afterwards; after every step the extent of every table must be unchanged (no request creates or removes cells), and a read that holds only writes whose byte count contradicts their quantity must change nothing.',
    design='6/C12', technique='Lean 4 proof over the server front-end model (totality, store frame rule) + differential correspondence on hostile input',
    note=SERVER_NOTE + 'That no Python exception other than those the model lists can be raised is established by correspondence, not by proof.')
CLAIMED['C17'] = dict(
    text='Kernel-checked: same_kind_agree (+ _history, _schedule: front-ends of the same kind — e.g. sync TCP and asyncio TCP — are equal as '
         'functions of the byte stream: every byte string, every request class, every interleaving of several connections), and across '
         'kinds (the Twisted protocols alone count sent messages and honour listen-only mode) the simulation all_frontends_agree / '
         'stream_frontends_agree_history: for data-access and identification requests every pair of front-ends writes byte-identical '
         'responses and leaves the same datastore, the worlds differing at most in the counters and the connections (CSim) at most in when they '
         'read the unit list; same_kind_agree needs front-ends that read the unit list at the same point; frontends_agree_any_chunking (any two stream front-ends, any two ways of cutting the request stream into reads: same bytes written, same datastore — C06, C09/C12 and C17 composed), framing_independent_of_store, '
         'mode_invariant. Each run gives the same datastore and request bytes to every real front-end and compares them with each other '
         'byte for byte (also from control blocks whose message counters stand at the 16-bit boundary), and interleaves 1..3 connections against the serial run of the frames in completion order.',
    design='6/C17', technique='Lean 4 proof of front-end equivalence (equality within a kind, simulation across kinds) + cross-implementation differential run',
    note=SERVER_NOTE + 'A schedule is a total order of chunk deliveries; preemption inside one processIncomingPacket call (threaded server) is not modelled.')

CLAIMED['C15'] = dict(
    text='Kernel-checked, for ANY number of threads, ANY number of transactions per thread, ANY schedule (pre-emption before every '
         'operation: client-lock acquire, connect check, connect open, manager-lock acquire, tid++, connect, flush of the input, each '
         'of the two writes of a frame, every poll, each recv, process, both releases), a client that is connected OR NOT when the '
         'threads start, ANY fate of the connection attempts (the k-th create_connection accepted or refused) and ANY set of LOST '
         'transmissions (Req.lost = n: the peer stays silent for the first n transmissions of a request: short read, connection '
         'closed) and ANY retry configuration of the client (Cfg: retries k >= 0, retry_on_empty, back-off or not): after a '
         'transmission that got nothing the retry loop backs off (a yield point: any thread may run; BOTH locks stay held - '
         'backoff_holds_both_locks), reconnects and transmits again, at most k+1 times; requests may be '
         'BROADCASTS (written under both locks, nothing read, no unit answers, result = the marker); with the lock '
         'discipline a parameter of the model. Under the shipped discipline (client lock around connect + transaction, manager lock '
         'nested): C15_full = Serialised (mutual_exclusion; frames_contiguous; caller_gets_its_due: every caller gets the reply built '
         'for its own request - its transaction id, unit and data, from whichever transmission got an answer - or, only when ALL its '
         'transmissions were lost (attempts <= lost), its own error object, or, '
         'only when a connection attempt was refused, the connection exception, or, for a broadcast, the broadcast marker; never a '
         'foreign reply; a broadcast frame never lands between another caller\'s send and the end of its receive) and NeverStuck (no_deadlock; '
         'fair_schedule_finishes: k rounds each giving every thread a turn, k >= total operations, end with every thread finished and '
         'every request answered); own_reply, broadcaster_gets_marker, error_only_if_own_reply_lost, finished_all_served, results_in_request_order, '
         'finished_all_answered, socket_replaced_only_when_idle (a socket is installed only while no transaction is in flight), '
         'socket_is_newest_connection, every_move_is_progress, reentrant_acquire_never_blocks; by induction over the schedule with the '
         'invariant "holder of the client lock = the only thread inside execute and the newest connection is exactly where its '
         'transaction left it". generated_lock_scope: the source, read by ast on every run, has that discipline at both lock sites; '
         'generated_backoff_keeps_locks: OBSERVED on every run (one real retried transaction, locks instrumented from their birth): '
         'neither lock is released between two transmissions. '
         'Named mutants without the property: backoff_release_counterexample / releaseClientLockInBackoff_deadlocks (the back-off '
         'waits on a condition of the client lock, keeping the manager lock: a second caller takes the client lock and parks on the '
         'manager lock, the first cannot get the client lock back; seeded C15-10; backoff_release_repaired), broadcastOutside_counterexample / _not_serialised (a broadcast written after the client '
         'lock is given back: seeded C15-04), lockOnlyWhenCold_counterexample / _not_serialised (client lock only when no socket is '
         'seen: after a lost reply the reconnect inside _transact races with the locked connect; seeded C15-03), '
         'lock_leak_counterexample / leakOnFail_deadlocks (seeded C15-02), connect_race_counterexample / connectOutside_not_serialised '
         '(code before the repair of connect-outside-lock), none / perKey / perKey_foreign_reply / sendOnly counterexamples. Real '
         'threads on the real ModbusTcpClient (in-memory socket/select/time, scripted connection refusals, lost replies, broadcasts and '
         'retrying clients whose back-off sleep is a yield point; both locks instrumented at birth and from outside; a thread that stops '
         'reaching yield points for 3 s is reported as a deadlock) run under a deterministic cooperative scheduler for all schedules of 2..4 threads x 1..3 '
         'transactions (DFS, capped) plus random schedules, each run checked against the property directly and against the model. Replies that arrive incomplete (first 8..10 bytes) are run against the property only (the schedule model has replies that never arrive, not cut ones); socket close() is not a yield point, so a pre-emption between a lock release and a later close() is not exhibited.',
    design='6/C15', technique='Lean 4 invariant proof over schedules of a lock-parametric thread model + systematic schedule enumeration of the real code',
    note='Partial only in the sense of the design: pre-emption is exhibited at the yield points (every transport operation, every poll, '
         'lock acquire/release; the model allows it between any two operations); pre-emption inside a Python bytecode sequence and '
         'GIL effects are not exhibited. Faults are refused connection attempts and replies that never arrive; a reply that arrives '
         'late is not modelled here (C13). The locks are observed by wrapping what the modules call RLock while the client is '
         'constructed and by replacing manager._transaction_lock and client._connect_lock with instrumented wrappers around whatever '
         'objects the code created; the back-off is time.sleep inside pymodbus.transaction (virtual time). '
         'Fixed finding: connect-outside-lock.')

PENDING_REASON = 'check not built yet in this revision (work in progress; planned per DESIGN.md section 6)'

def main():
    props = [json.loads(l) for l in open(os.path.join(V, 'properties.jsonl'))]
    checks, na = [], []
    for p in props:
        pid = p['id']
        if pid in CLAIMED:
            c = CLAIMED[pid]
            checks.append(dict(
                property_id=pid,
                quick_cmd='python3 check.py %s --tier quick' % pid,
                thorough_cmd='python3 check.py %s --tier thorough' % pid,
                evidence_file='evidence/%s.json' % pid,
                replay_cmd_template='python3 check.py %s --replay {path}' % pid,
                engine='lean-model+correspondence',
                level_claimed=dict(category='proof', text=c['text'], design_ref=c['design']),
                level_note=BASE_NOTE + c['note'],
                technique=c['technique']))
        else:
            na.append(dict(property_id=pid, reason=PENDING_REASON))
    m = dict(
        version=1,
        setup_cmd='./setup.sh',
        hooks=dict(guard='PYMODBUS_VERIF', enable='checks export PYMODBUS_VERIF=1 (no source hook reads it: all observation points are reachable from outside)',
                   baseline_off_cmd='cd /repo && /venv/bin/python -m pytest -ra -q -p no:cacheprovider --timeout=900 --continue-on-collection-errors',
                   source_commits=[], add_only=True),
        engines=[dict(name='lean-model+correspondence', path='lean/ + harness/', serves_properties=sorted(CLAIMED),
                      kind_free_text='Lean 4 model + theorems (lean/Pymodbus), compiled model driver (pmdriver), Python differential harness against /repo')],
        checks=checks,
        not_applicable=na,
        notes='See DESIGN.md. Known findings: known_findings.json. Seeded mutants: seeded/.')
    json.dump(m, open(os.path.join(V, 'MANIFEST.json'), 'w'), indent=1)
    print('claimed', len(checks), 'pending', len(na))

if __name__ == '__main__':
    main()
