#!/bin/sh
# validate MANIFEST.json and every evidence file against the schemas in /root/.vp (uses the tooling venv's jsonschema)
cd "$(dirname "$0")/.." && python3-vt - <<'PY'
import json, glob, jsonschema, sys
bad = 0
jsonschema.validate(json.load(open('MANIFEST.json')), json.load(open('/root/.vp/MANIFEST.schema.json')))
s = json.load(open('/root/.vp/EVIDENCE.schema.json'))
for f in sorted(glob.glob('evidence/*.json')):
    try:
        jsonschema.validate(json.load(open(f)), s)
    except Exception as e:
        bad += 1
        print(f, 'INVALID', str(e)[:300])
print('manifest valid;', len(glob.glob('evidence/*.json')), 'evidence files,', bad, 'invalid')
sys.exit(1 if bad else 0)
PY
