#!/usr/bin/env python3
"""Correspondence self-test for the checksum model (Lean) against the real pymodbus code.

Compares pymodbus.utilities.computeCRC / computeLRC / checkCRC / checkLRC and the generated
table __crc16_table with the compiled Lean driver (ops "crc", "lrc", "crctable"):

  * the model value (Impl.computeCRC / Impl.computeLRC) must equal the real value
    (correspondence model <-> real code), and
  * the spec value (bit-serial CRC-16/MODBUS, two's-complement LRC) must equal the real value
    (the property itself, with the Lean Spec as oracle),

on every byte string of length <= 2 (1 + 256 + 65536 strings) and on N random/structured byte
strings (default 2000, lengths 0..300).  Also checks the detection facts proved in
Props/Checksum.lean on the REAL code for sampled single/double/triple bit flips and bursts.

Run:  PYTHONPATH=/repo /venv/bin/python tools/crc_selftest.py [--seed S] [--n N] [--driver PATH]
Exit status 0 = all agree, 1 = a mismatch was found (printed), 2 = infrastructure problem.
"""
import argparse
import json
import os
import random
import subprocess
import sys
import time

HERE = os.path.dirname(os.path.abspath(__file__))
DEFAULT_DRIVER = os.path.join(HERE, '..', 'lean', '.lake', 'build', 'bin', 'pmdriver')


def query(driver, ops):
    data = '\n'.join(json.dumps(o, separators=(',', ':')) for o in ops) + '\n'
    p = subprocess.run([driver], input=data, stdout=subprocess.PIPE, stderr=subprocess.PIPE,
                       text=True, timeout=1800)
    if p.returncode != 0:
        print('INFRA: pmdriver exited %d: %s' % (p.returncode, p.stderr[-2000:]))
        sys.exit(2)
    out = p.stdout.splitlines()
    if len(out) != len(ops):
        print('INFRA: pmdriver answered %d lines for %d ops' % (len(out), len(ops)))
        sys.exit(2)
    res = []
    for o, l in zip(ops, out):
        r = json.loads(l)
        if 'driver_error' in r:
            print('INFRA: pmdriver rejected %r: %s' % (o, r['driver_error']))
            sys.exit(2)
        res.append(r)
    return res


def gen_strings(rng, n):
    """random and structured byte strings, lengths 0..300"""
    out = []
    special = [0x00, 0xFF, 0x01, 0x80, 0x7B, 0x7D, 0x3A, 0x0D, 0x0A, 0xA0, 0x55, 0xAA]
    for i in range(n):
        kind = i % 5
        if kind == 0:
            ln = rng.randrange(0, 301)
            s = [rng.randrange(256) for _ in range(ln)]
        elif kind == 1:
            ln = rng.randrange(0, 16)
            s = [rng.randrange(256) for _ in range(ln)]
        elif kind == 2:
            ln = rng.randrange(0, 301)
            s = [rng.choice(special) for _ in range(ln)]
        elif kind == 3:
            ln = rng.randrange(1, 301)
            s = [rng.choice(special)] * ln
        else:  # looks like an RTU request: unit, fc, addr, count
            s = [rng.randrange(256), rng.choice([1, 2, 3, 4, 5, 6, 15, 16, 23, 43]),
                 rng.randrange(256), rng.randrange(256), rng.randrange(256), rng.randrange(256)]
        out.append(s)
    return out


def main():
    ap = argparse.ArgumentParser()
    ap.add_argument('--seed', type=int, default=int(os.environ.get('VERIF_SEED', '20240601')))
    ap.add_argument('--n', type=int, default=2000)
    ap.add_argument('--driver', default=os.environ.get('PMV_DRIVER', DEFAULT_DRIVER))
    args = ap.parse_args()
    t_start = time.time()
    rng = random.Random(args.seed)

    import pymodbus
    from pymodbus import utilities as U
    from pymodbus.utilities import computeCRC, computeLRC, checkCRC, checkLRC
    print('pymodbus %s from %s' % (getattr(pymodbus, '__version__', '?'), os.path.dirname(pymodbus.__file__)))
    print('driver   %s' % os.path.abspath(args.driver))

    bad = []

    def mismatch(what, **kw):
        if len(bad) < 20:
            print('MISMATCH %s %s' % (what, json.dumps(kw, sort_keys=True)))
        bad.append(what)

    # ---- the generated table
    real_table = list(getattr(U, '_' + '_crc16_table', None) or U.__dict__['__crc16_table'])
    model_table = query(args.driver, [{'op': 'crctable'}])[0]['table']
    if real_table != model_table:
        diff = [i for i in range(max(len(real_table), len(model_table)))
                if i >= len(real_table) or i >= len(model_table) or real_table[i] != model_table[i]]
        mismatch('crc table: model != real', first_index=diff[0], n_diff=len(diff))
    print('table: %d entries compared' % len(real_table))

    # ---- inputs
    exhaustive = [[]] + [[a] for a in range(256)] + [[a, b] for a in range(256) for b in range(256)]
    randoms = gen_strings(rng, args.n)
    inputs = exhaustive + randoms
    n_checks = 0

    # every input: with a "check" value that is right for half of the random ones and wrong
    # (one bit off / random) for the others, to exercise checkCRC / checkLRC as well
    ops = []
    meta = []
    for idx, s in enumerate(inputs):
        b = bytes(s)
        rc = computeCRC(b)
        rl = computeLRC(b)
        if idx % 3 == 0:
            cc, cl = rc, rl
        elif idx % 3 == 1:
            cc, cl = rc ^ (1 << rng.randrange(16)), rl ^ (1 << rng.randrange(8))
        else:
            cc, cl = rng.randrange(65536), rng.randrange(256)
        ops.append({'op': 'crc', 'data': s, 'check': cc})
        ops.append({'op': 'lrc', 'data': s, 'check': cl})
        meta.append((s, rc, rl, cc, cl, 1 if checkCRC(b, cc) else 0, 1 if checkLRC(b, cl) else 0))
    ans = []
    CH = 20000
    for i in range(0, len(ops), CH):
        ans.extend(query(args.driver, ops[i:i + CH]))
    for k, (s, rc, rl, cc, cl, rcc, rlc) in enumerate(meta):
        ac, al = ans[2 * k], ans[2 * k + 1]
        short = s if len(s) <= 12 else s[:12] + ['...(%d bytes)' % len(s)]
        if ac['model'] != rc:
            mismatch('computeCRC: model != real', data=short, real=rc, model=ac['model'])
        if ac['spec'] != rc:
            mismatch('computeCRC: real != bit-serial spec (bytes exchanged)', data=short, real=rc, spec=ac['spec'])
        # what goes on the wire: struct.pack('>H', crc) must be low byte of the register first
        if [rc >> 8, rc & 0xFF] != ac['spec_wire']:
            mismatch('CRC wire order', data=short, real=[rc >> 8, rc & 0xFF], spec=ac['spec_wire'])
        if (1 if ac['model_check'] else 0) != rcc:
            mismatch('checkCRC: model != real', data=short, check=cc, real=rcc)
        if (1 if ac['spec_check'] else 0) != rcc:
            mismatch('checkCRC: real != spec', data=short, check=cc, real=rcc)
        if al['model'] != rl:
            mismatch('computeLRC: model != real', data=short, real=rl, model=al['model'])
        if al['spec'] != rl:
            mismatch('computeLRC: real != two\'s complement spec', data=short, real=rl, spec=al['spec'])
        if (1 if al['model_check'] else 0) != rlc:
            mismatch('checkLRC: model != real', data=short, check=cl, real=rlc)
        if (1 if al['spec_check'] else 0) != rlc:
            mismatch('checkLRC: real != spec', data=short, check=cl, real=rlc)
        n_checks += 9
    print('strings: %d exhaustive (len<=2) + %d random/structured; %d comparisons'
          % (len(exhaustive), len(randoms), n_checks))

    # ---- detection facts on the REAL code (the theorems say these can never fail)
    def flip(s, t):
        s = list(s)
        s[t // 8] ^= 1 << (t % 8)
        return s

    n_det = 0
    for s in randoms[:400]:
        if not s:
            continue
        nb = 8 * len(s)
        base = computeCRC(bytes(s))
        base_l = computeLRC(bytes(s))
        # every single bit (short strings) or 32 sampled bits
        ts = range(nb) if nb <= 128 else [rng.randrange(nb) for _ in range(32)]
        for t in ts:
            n_det += 1
            if computeCRC(bytes(flip(s, t))) == base:
                mismatch('single-bit error not detected by computeCRC', data=s, bit=t)
        for _ in range(16):
            t1, t2, t3 = rng.randrange(nb), rng.randrange(nb), rng.randrange(nb)
            if t1 != t2:
                n_det += 1
                if computeCRC(bytes(flip(flip(s, t1), t2))) == base:
                    mismatch('double-bit error not detected by computeCRC', data=s, bits=[t1, t2])
            n_det += 1
            if computeCRC(bytes(flip(flip(flip(s, t1), t2), t3))) == base:
                mismatch('triple-bit error not detected by computeCRC', data=s, bits=[t1, t2, t3])
            # burst: random non-zero pattern inside a 16-bit window
            t0 = rng.randrange(nb)
            pat = rng.randrange(1, 65536)
            e = list(s)
            hit = False
            for j in range(16):
                if (pat >> j) & 1 and t0 + j < nb:
                    e = flip(e, t0 + j)
                    hit = True
            if hit:
                n_det += 1
                if computeCRC(bytes(e)) == base:
                    mismatch('burst (<=16 bits) not detected by computeCRC', data=s, t0=t0, pattern=pat)
            # single byte substitution vs LRC
            k = rng.randrange(len(s))
            v = rng.randrange(256)
            if v != s[k]:
                n_det += 1
                e = list(s)
                e[k] = v
                if computeLRC(bytes(e)) == base_l:
                    mismatch('single-byte change not detected by computeLRC', data=s, index=k, value=v)
    print('detection: %d corrupted messages checked on the real code' % n_det)

    dt = time.time() - t_start
    if bad:
        print('FAIL: %d mismatches (%.1f s)' % (len(bad), dt))
        sys.exit(1)
    print('PASS: model, spec and real code agree (%.1f s, seed %d)' % (dt, args.seed))
    sys.exit(0)


if __name__ == '__main__':
    main()
