#!/usr/bin/env python
"""C15, fixed finding connect-outside-lock, on real sockets (not part of the check).  Before the repair
`BaseModbusClient.execute` called `self.connect()` BEFORE any lock was taken, and `ModbusTcpClient.connect` is check-then-act (`if self.socket: return True` ... `self.socket =
socket.create_connection(...)`, a blocking call during which other threads run).  A second caller whose connection
attempt completes while the first caller is waiting for its reply replaces `client.socket` under the first caller's
feet: the first caller keeps polling the NEW socket, its reply arrives on the old one and is lost (and the old socket
is leaked).  Real ModbusTcpClient, real sockets (socketpair), only `socket.create_connection` is replaced.

  PYTHONPATH=/repo /venv/bin/python tools/c15_connect_race_demo.py      exit 1 = reply lost (tree without the client lock), 0 = repaired
"""
import socket
import struct
import sys
import threading
import time

import pymodbus.client.sync as sync
from pymodbus.client.sync import ModbusTcpClient
from pymodbus.register_read_message import ReadHoldingRegistersRequest

first_request_seen = threading.Event()
slow_connect_started = threading.Event()
served = []


def serve(conn, name):
    """answer every read-holding-registers frame with registers addr, addr+1, ..."""
    buf = b''
    while True:
        try:
            d = conn.recv(1024)
        except OSError:
            return
        if not d:
            return
        buf += d
        while len(buf) >= 12:
            tid, pid, ln, unit, fc, addr, count = struct.unpack('>HHHBBHH', buf[:12])
            buf = buf[12:]
            served.append((name, tid, unit, addr, count))
            first_request_seen.set()
            time.sleep(0.15)                       # reply latency
            pdu = struct.pack('>BB', fc, 2 * count) + b''.join(struct.pack('>H', (addr + i) & 0xffff) for i in range(count))
            conn.sendall(struct.pack('>HHHB', tid, 0, len(pdu) + 1, unit) + pdu)


def fake_create_connection(address, timeout=None, source_address=None):
    a, b = socket.socketpair()
    me = threading.current_thread().name
    threading.Thread(target=serve, args=(b, 'conn-of-' + me), daemon=True).start()
    if me == 'slow':
        slow_connect_started.set()
        first_request_seen.wait(5)                 # the TCP handshake of this caller takes a while
    a.settimeout(timeout)
    return a


sync.socket.create_connection = fake_create_connection
client = ModbusTcpClient('192.0.2.1', 502, timeout=0.5)
results = {}


def caller(name, addr, count, unit):
    rr = client.execute(ReadHoldingRegistersRequest(addr, count, unit=unit))
    results[name] = getattr(rr, 'registers', rr)


slow = threading.Thread(target=caller, args=('slow', 200, 3, 2), name='slow')
fast = threading.Thread(target=caller, args=('fast', 100, 2, 1), name='fast')
slow.start()
slow_connect_started.wait(5)
fast.start()
slow.join(10)
fast.join(10)
print('requests the peer answered:', served)
print('fast caller (addr 100, 2 registers) got:', results.get('fast'))
print('slow caller (addr 200, 3 registers) got:', results.get('slow'))
ok = results.get('fast') == [100, 101] and results.get('slow') == [200, 201, 202]
print('RESULT:', 'every caller got its own reply' if ok else 'a reply was LOST although the peer answered every request')
sys.exit(0 if ok else 1)
