#!/bin/sh
# usage: tools/thorough_all.sh [jobs] [props...]  -- run the thorough tier of the given (default: all claimed) checks, N at a time
J=${1:-4}; shift 2>/dev/null
PROPS=${*:-$(python3 -c "import json;print(' '.join(c['property_id'] for c in json.load(open('MANIFEST.json'))['checks']))")}
mkdir -p /tmp/thorough
echo $PROPS | tr ' ' '\n' | xargs -P $J -I{} sh -c 'python3 check.py {} --tier thorough > /tmp/thorough/{}.log 2>&1; echo "{} rc=$? $(tail -1 /tmp/thorough/{}.log | cut -c1-170)"'
