#!/bin/sh
# usage: tools/seed_verdict.sh <seed-id> [Cxx]  -- run the seed in a scratch worktree and summarise the verdict
ID=$1; P=${2:-$(echo $ID | cut -d- -f1)}
OUT=$(TAIL=4000 /verif/tools/try_seed_wt.sh /verif/seeded/$ID/patch.diff $P 2>&1)
REAL=$(echo "$OUT" | grep -c '^VIOLATION' ); NFI=$(echo "$OUT" | grep '^VIOLATION' | grep -c 'no-failing-input-found')
echo "$ID on $P: violations=$REAL (no-failing-input-found=$NFI) $(echo "$OUT" | tail -1 | sed 's/.*; //')"
echo "$OUT" | grep -m2 'violation:\|BROKEN\|correspondence broken' | cut -c1-300
